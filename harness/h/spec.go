package h

import (
	"fmt"
	"image"
	"image/color"
	"math"
	"strconv"
	"strings"

	"github.com/reactivego/ivg"
	"github.com/reactivego/ivg/render"
)

// Independent reference implementations written from spec/iconvg-spec-v0.md and the property
// texts (not from render.go): the register machine, SVG path semantics in viewBox space, the
// viewBox-to-rectangle map.  Used as monitors: predicates on the implementation's observations.

// ---------- the specification's virtual machine ----------

type vm struct {
	pal, creg  [64]color.RGBA
	nreg       [64]float32
	csel, nsel uint8
	lod0, lod1 float32
}

func (m *vm) reset(pal [64]color.RGBA) {
	*m = vm{pal: pal, creg: pal, lod1: float32(math.Inf(1))}
}

func (m *vm) resolve1(x uint8) color.RGBA {
	switch {
	case x >= 0xc0:
		return m.creg[x&0x3f]
	case x >= 0x80:
		return m.pal[x&0x3f]
	case x == 127:
		return color.RGBA{}
	case x == 126:
		return color.RGBA{0x80, 0x80, 0x80, 0x80}
	case x == 125:
		return color.RGBA{0xc0, 0xc0, 0xc0, 0xc0}
	}
	t := [5]uint8{0, 0x40, 0x80, 0xc0, 0xff}
	return color.RGBA{t[x/25], t[x/5%5], t[x%5], 0xff}
}

func (m *vm) resolve(c ivg.Color) color.RGBA {
	typ, d := ColorParts(c)
	switch typ {
	case 0:
		return d
	case 1:
		return m.pal[d.R&0x3f]
	case 2:
		return m.creg[d.R&0x3f]
	}
	a, b := m.resolve1(d.G), m.resolve1(d.B)
	t := uint32(d.R)
	ch := func(x, y uint8) uint8 { return uint8(((255-t)*uint32(x) + t*uint32(y) + 128) / 255) }
	return color.RGBA{ch(a.R, b.R), ch(a.G, b.G), ch(a.B, b.B), ch(a.A, b.A)}
}

func premul(c color.RGBA) bool { return c.R <= c.A && c.G <= c.A && c.B <= c.A }

// step executes a styling call; for "start" it returns the paint descriptor the path must be
// filled with ("" = the path must cause no rasteriser activity).
func (m *vm) step(c Call, height int) (paint string, isStart bool) {
	switch c.Name {
	case "reset":
		m.reset(c.Pal)
	case "csel":
		m.csel = c.U8 & 0x3f
	case "nsel":
		m.nsel = c.U8 & 0x3f
	case "creg":
		m.creg[(m.csel-c.Adj)&0x3f] = m.resolve(c.Col)
		if c.Incr {
			m.csel = (m.csel + 1) & 0x3f
		}
	case "nreg":
		m.nreg[(m.nsel-c.Adj)&0x3f] = c.F[0]
		if c.Incr {
			m.nsel = (m.nsel + 1) & 0x3f
		}
	case "lod":
		m.lod0, m.lod1 = c.F[0], c.F[1]
	case "start":
		isStart = true
		h := float32(height)
		if !(m.lod0 <= h && h < m.lod1) {
			return "", true
		}
		col := m.creg[(m.csel-c.Adj)&0x3f]
		if premul(col) {
			if col.A == 0 {
				return "", true
			}
			return "U" + HexRGBA(col), true
		}
		if col.A == 0 && col.B&0x80 != 0 {
			nStops, cBase, nBase := int(col.R&0x3f), col.G&0x3f, col.B&0x3f
			shape, spread := (col.B>>6)&1, col.G>>6
			if nStops < 2 {
				return "", true
			}
			prev := float32(math.Inf(-1))
			var st []string
			for i := 0; i < nStops; i++ {
				sc := m.creg[(cBase+uint8(i))&0x3f]
				off := m.nreg[(nBase+uint8(i))&0x3f]
				if !premul(sc) || !(0 <= off && off <= 1) || !(off > prev) {
					return "", true
				}
				prev = off
				st = append(st, showF64A(float64(off))+"."+HexRGBA(sc))
			}
			return fmt.Sprintf("G%d%d:%d:%s", shape, spread, nStops, strings.Join(st, ",")), true
		}
		return "", true
	}
	return "", false
}

// monitorVM: C04 — every path is painted with what the VM prescribes, or causes no activity.
func monitorVM(line string, rect image.Rectangle, cs []Call) (fails []Failure) {
	rec := &RecRaster{}
	var z render.Renderer
	z.SetRasterizer(rec, rect)
	var m vm
	want := ""
	inPath := false
	mark := 0
	defer func() {
		if p := recover(); p != nil {
			fails = append(fails, Failure{"C04.no-panic", line, fmt.Sprint(p)})
		}
	}()
	for i, c := range cs {
		if !c.IsDest() {
			continue
		}
		if p, isStart := m.step(c, rect.Dy()); isStart {
			want, inPath, mark = p, true, len(rec.Log)
		}
		c.Apply(&z)
		if inPath && want == "" && len(rec.Log) != mark {
			return append(fails, Failure{"C04.skipped-path-silent", line, fmt.Sprintf("call %d (%s): rasteriser activity %q in a path the VM skips", i, c.Name, rec.Log[len(rec.Log)-1])})
		}
		if !inPath && len(rec.Log) != mark {
			return append(fails, Failure{"C04.styling-silent", line, fmt.Sprintf("call %d (%s) outside a path caused rasteriser activity", i, c.Name)})
		}
		if c.Name == "Z" && inPath {
			inPath = false
			if want != "" {
				last := ""
				if len(rec.Log) > mark {
					last = rec.Log[len(rec.Log)-1]
				}
				f := strings.Fields(last)
				if len(f) < 6 || f[0] != "D" {
					return append(fails, Failure{"C04.path-drawn", line, fmt.Sprintf("path ending at call %d was not drawn (VM prescribes %s)", i, want)})
				}
				got := f[5]
				if strings.HasPrefix(want, "G") {
					// compare shape, spread, count, stops (not the pixel-space matrix)
					gp := strings.SplitN(got, ":", 4)
					if len(gp) < 3 || strings.Join(gp[:3], ":") != want {
						return append(fails, Failure{"C04.paint", line, fmt.Sprintf("path ending at call %d: paint %s, VM prescribes %s", i, got, want)})
					}
				} else if got != want {
					return append(fails, Failure{"C04.paint", line, fmt.Sprintf("path ending at call %d: paint %s, VM prescribes %s", i, got, want)})
				}
				nD := 0
				for _, e := range rec.Log[mark:] {
					if strings.HasPrefix(e, "D ") {
						nD++
					}
				}
				if nD != 1 {
					return append(fails, Failure{"C04.drawn-once", line, fmt.Sprintf("path drawn %d times", nD)})
				}
			}
			mark = len(rec.Log)
		}
		if z.CSel()&0x3f != m.csel || z.NSel()&0x3f != m.nsel {
			return append(fails, Failure{"C04.selectors", line, fmt.Sprintf("after call %d: renderer selectors %d/%d, VM %d/%d", i, z.CSel(), z.NSel(), m.csel, m.nsel)})
		}
	}
	return
}

// ---------- SVG path semantics + viewBox map (C05) ----------

func parseLogFloats(entry string) (op string, v []float64, ok bool) {
	f := strings.Fields(entry)
	if len(f) == 0 {
		return "", nil, false
	}
	op = f[0]
	if op == "R" || op == "D" || op == "Z" || strings.HasPrefix(op, "s=") {
		return op, nil, true
	}
	for _, t := range f[1:] {
		if t == "nan" {
			v = append(v, math.NaN())
			continue
		}
		u, err := strconv.ParseUint(t, 16, 32)
		if err != nil {
			return op, nil, false
		}
		v = append(v, float64(math.Float32frombits(uint32(u))))
	}
	return op, v, true
}

type pt struct{ x, y float64 }

// monitorGeometry: C05 — segments as spelled, mapped by the affine viewBox->rectangle map.
func monitorGeometry(line string, rect image.Rectangle, cs []Call) (fails []Failure) {
	rec := &RecRaster{}
	var z render.Renderer
	z.SetRasterizer(rec, rect)
	defer func() {
		if p := recover(); p != nil {
			fails = append(fails, Failure{"C05.no-panic", line, fmt.Sprint(p)})
		}
	}()
	var vb ivg.ViewBox
	var pen, start, ctrl pt // viewBox space
	ctrlKind := 0           // 0 none, 2 quad, 3 cube
	W, H := float64(rect.Dx()), float64(rect.Dy())
	T := func(p pt) pt {
		return pt{W * (p.x - float64(vb.MinX)) / (float64(vb.MaxX) - float64(vb.MinX)), H * (p.y - float64(vb.MinY)) / (float64(vb.MaxY) - float64(vb.MinY))}
	}
	mag := 1.0
	near := func(got []float64, want ...pt) bool {
		if len(got) != 2*len(want) {
			return false
		}
		for i, w := range want {
			tw := T(w)
			tol := 2e-4 * (mag + math.Abs(tw.x) + math.Abs(tw.y) + W + H)
			if math.Abs(got[2*i]-tw.x) > tol || math.Abs(got[2*i+1]-tw.y) > tol {
				return false
			}
		}
		return true
	}
	for i, c := range cs {
		if !c.IsDest() {
			continue
		}
		before := len(rec.Log)
		c.Apply(&z)
		delta := rec.Log[before:]
		bad := func(msg string) []Failure {
			return append(fails, Failure{"C05.geometry", line, fmt.Sprintf("call %d (%s): %s; rasteriser got %v", i, c.String(), msg, delta)})
		}
		f := make([]float64, len(c.F))
		for k, v := range c.F {
			f[k] = float64(v)
			if a := math.Abs(f[k]) * math.Max(W/(float64(vb.MaxX)-float64(vb.MinX)), H/(float64(vb.MaxY)-float64(vb.MinY))); a > mag && !math.IsInf(a, 0) && !math.IsNaN(a) {
				mag = a
			}
		}
		expectOne := func(op string, pts ...pt) []Failure {
			if len(delta) != 1 {
				return bad("expected exactly one " + op)
			}
			o, v, ok := parseLogFloats(delta[0])
			if !ok || o != op || !near(v, pts...) {
				return bad(fmt.Sprintf("expected %s to %v (mapped)", op, pts))
			}
			return nil
		}
		rel := func(k int) pt { return pt{pen.x + f[k], pen.y + f[k+1]} }
		abs := func(k int) pt { return pt{f[k], f[k+1]} }
		reflect := func(kind int) pt {
			if ctrlKind == kind {
				return pt{2*pen.x - ctrl.x, 2*pen.y - ctrl.y}
			}
			return pen
		}
		switch c.Name {
		case "reset":
			vb = c.VB
			if len(delta) != 0 {
				return bad("Reset must not touch the rasteriser")
			}
		case "start":
			p := abs(0)
			if len(delta) != 2 || delta[0] != fmt.Sprintf("R %d %d", rect.Dx(), rect.Dy()) {
				return bad("expected Reset(w,h) then MoveTo")
			}
			o, v, ok := parseLogFloats(delta[1])
			if !ok || o != "M" || !near(v, p) {
				return bad("expected MoveTo to the mapped start point")
			}
			pen, start, ctrlKind = p, p, 0
		case "Z":
			if len(delta) != 2 || delta[0] != "Z" || !strings.HasPrefix(delta[1], fmt.Sprintf("D %d %d %d %d ", rect.Min.X, rect.Min.Y, rect.Max.X, rect.Max.Y)) || strings.Contains(delta[1], "sp=") {
				return bad("expected ClosePath then Draw over the target rectangle at (0,0)")
			}
			pen = start
		case "Y", "y":
			p := abs(0)
			if c.Name == "y" {
				p = pt{start.x + f[0], start.y + f[1]}
			}
			if len(delta) != 2 || delta[0] != "Z" {
				return bad("expected ClosePath then MoveTo")
			}
			o, v, ok := parseLogFloats(delta[1])
			if !ok || o != "M" || !near(v, p) {
				return bad("expected MoveTo (relative moves are relative to the sub-path start)")
			}
			pen, start, ctrlKind = p, p, 0
		case "H", "h", "V", "v", "L", "l":
			var p pt
			switch c.Name {
			case "H":
				p = pt{f[0], pen.y}
			case "h":
				p = pt{pen.x + f[0], pen.y}
			case "V":
				p = pt{pen.x, f[0]}
			case "v":
				p = pt{pen.x, pen.y + f[0]}
			case "L":
				p = abs(0)
			default:
				p = rel(0)
			}
			if r := expectOne("L", p); r != nil {
				return r
			}
			pen, ctrlKind = p, 0
		case "T", "t":
			c1 := reflect(2)
			p := abs(0)
			if c.Name == "t" {
				p = rel(0)
			}
			if r := expectOne("Q", c1, p); r != nil {
				return r
			}
			pen, ctrl, ctrlKind = p, c1, 2
		case "Q", "q":
			c1, p := abs(0), abs(2)
			if c.Name == "q" {
				c1, p = rel(0), rel(2)
			}
			if r := expectOne("Q", c1, p); r != nil {
				return r
			}
			pen, ctrl, ctrlKind = p, c1, 2
		case "S", "s":
			c1 := reflect(3)
			c2, p := abs(0), abs(2)
			if c.Name == "s" {
				c2, p = rel(0), rel(2)
			}
			if r := expectOne("C", c1, c2, p); r != nil {
				return r
			}
			pen, ctrl, ctrlKind = p, c2, 3
		case "C", "c":
			c1, c2, p := abs(0), abs(2), abs(4)
			if c.Name == "c" {
				c1, c2, p = rel(0), rel(2), rel(4)
			}
			if r := expectOne("C", c1, c2, p); r != nil {
				return r
			}
			pen, ctrl, ctrlKind = p, c2, 3
		}
	}
	return
}

func monitorArcs(line string, rect image.Rectangle, cs []Call) []Failure        { return nil }
func monitorGradient(line string, rect image.Rectangle, smp []image.Point, cs []Call) []Failure {
	return nil
}
func monitorC19(line string, ops []GenOp, h GenOp) []Failure           { return nil }
func monitorPathData(line string, ops []GenOp, obs string) []Failure { return nil }
