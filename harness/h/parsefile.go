package h

import (
	"bytes"
	"fmt"
	"os"
	"path/filepath"
	"regexp"
	"strconv"
	"strings"

	"github.com/reactivego/ivg"
	"github.com/reactivego/ivg/mdicons"
	"golang.org/x/image/math/f32"
)

var hexTok = regexp.MustCompile(`0x[0-9a-fA-F]{1,2}`)

// monitorParseFile: the converter's file-level glue (mdicons.ParseFile: XML attributes, viewBox offset, one
// opacity table and the circles shared by all paths of the icon, the Encoder behind it) against the
// path-level converter it is built from: the icon file must encode exactly Reset(-24..24, default palette)
// followed by what ParsePath emits for each path in turn — the circles with the first path — up to the
// Encoder's coordinate quantisation.
func monitorParseFile(work string, shard int, line string, size, vbx, vby, outSize float32, paths []MdPath, fillOpacity []bool) (fails []Failure) {
	var sb strings.Builder
	num := func(f float32) string { return strconv.FormatFloat(float64(f), 'g', -1, 32) }
	fmt.Fprintf(&sb, `<svg xmlns="http://www.w3.org/2000/svg" width="%s" height="%s" viewBox="%s %s %s %s">`+"\n", num(size), num(size), num(vbx), num(vby), num(size), num(size))
	var circles []mdicons.Circle
	// the two paths the converter leaves out (its skippedPaths table: a white rectangle, a lone move), at a position
	// derived from the case: a left-out path is not "the first path" — the circles go with the first path that IS
	// converted (round 5, C20-J: they were handed over before the skip test and lost)
	skipAt, skipEl := -1, ""
	if h := len(line) + len(paths); h%3 == 0 {
		skipAt = (h / 3) % (len(paths) + 1)
		skipEl = []string{`  <path fill="#fff" d="M16 34h22v4H16z"/>`, `  <path d="M20.36 18"/>`}[(h/9)%2] + "\n"
	}
	for i, p := range paths {
		if i == skipAt {
			sb.WriteString(skipEl)
		}
		attr := ""
		if p.Opacity != 1 {
			name := "opacity"
			if i < len(fillOpacity) && fillOpacity[i] {
				name = "fill-opacity"
			}
			attr = fmt.Sprintf(` %s="%s"`, name, num(p.Opacity))
		}
		fmt.Fprintf(&sb, `  <path d="%s"%s/>`+"\n", p.D, attr)
		for _, c := range p.Circles {
			fmt.Fprintf(&sb, `  <circle cx="%s" cy="%s" r="%s"/>`+"\n", num(c.Cx), num(c.Cy), num(c.R))
			circles = append(circles, c)
		}
	}
	if skipAt == len(paths) {
		sb.WriteString(skipEl)
	}
	sb.WriteString("</svg>\n")
	dir := filepath.Join(work, fmt.Sprintf("svg%d", shard))
	if err := os.MkdirAll(dir, 0o755); err != nil {
		return nil
	}
	name := filepath.Join(dir, "ic_case_48px.svg")
	if err := os.WriteFile(name, []byte(sb.String()), 0o644); err != nil {
		return nil
	}
	defer os.Remove(name)
	bad := func(msg string) []Failure {
		return append(fails, Failure{"C20.converter-file", line, msg + " :: " + strings.ReplaceAll(sb.String(), "\n", " ")})
	}
	// the reference: the path-level converter, path by path, into a recorder
	rec := &Recorder{}
	rec.Reset(ivg.ViewBox{MinX: -24, MinY: -24, MaxX: 24, MaxY: 24}, ivg.DefaultPalette)
	offset := f32.Vec2{vbx * outSize / size, vby * outSize / size}
	adjs := map[float32]uint8{}
	pending := circles
	refErr := false
	func() {
		defer func() {
			if recover() != nil {
				refErr = true
			}
		}()
		for _, p := range paths {
			mp := &mdicons.Path{D: p.D}
			if p.Opacity != 1 {
				o := p.Opacity
				mp.Opacity = &o
			}
			if err := mdicons.ParsePath(rec, mp, adjs, size, offset, outSize, pending); err != nil {
				refErr = true
				return
			}
			pending = nil
		}
		if len(pending) != 0 {
			if err := mdicons.ParsePath(rec, &mdicons.Path{}, adjs, size, offset, outSize, pending); err != nil {
				refErr = true
			}
		}
	}()
	if refErr || len(adjs) > 6 || !WellFormedClosed(rec.Calls) {
		// more than six registers, or a path without data and without circles (an end of path with no start):
		// the Encoder behind ParseFile rightly refuses
		return nil
	}
	var out bytes.Buffer
	var perr error
	panicked := ""
	func() {
		defer func() {
			if p := recover(); p != nil {
				panicked = fmt.Sprint(p)
			}
		}()
		_, perr = mdicons.ParseFile(name, "dir", "case", size, outSize, &out)
	}()
	if panicked != "" {
		return bad("ParseFile panics: " + panicked)
	}
	if perr != nil {
		return bad("ParseFile fails on an icon every path of which converts: " + perr.Error())
	}
	var bs []byte
	text := out.String()
	if k := strings.Index(text, "{"); k >= 0 {
		text = text[k:]
	}
	for _, t := range hexTok.FindAllString(text, -1) {
		v, _ := strconv.ParseUint(t[2:], 16, 8)
		bs = append(bs, byte(v))
	}
	calls, derr, p := Decode(nil, bs)
	if p != "" || derr != nil {
		return bad(fmt.Sprint("the bytes ParseFile wrote do not decode: ", derr, p))
	}
	if msg := cmpCalls(rec.Calls, calls, func(int) bool { return false }, false); msg != "" {
		return bad("the icon file does not encode Reset + the paths converted one by one (circles with the first path, one opacity table): " + msg)
	}
	return nil
}
