package h

import (
	"fmt"
	"image"
	"image/color"
	"strings"

	"github.com/reactivego/ivg/raster"
	"golang.org/x/image/vector"
)

func showF32A(f float32) string {
	if f != f {
		return "nan"
	}
	return HexF32(f)
}
func showF64A(f float64) string {
	if f != f {
		return "nan"
	}
	return HexF64(f)
}

// RecRaster is a recording raster.Rasterizer.  Its pen follows the contract of
// golang.org/x/image/vector (Reset: pen and sub-path start at the origin; MoveTo: both move;
// LineTo/QuadTo/CubeTo: pen to the end point; ClosePath: pen to the sub-path start).
// PenSelfTest checks that contract against the real vector.Rasterizer.
type RecRaster struct {
	Log            []string
	Samples        []image.Point
	NCalls         int
	NSegs          int
	w, h           int
	px, py, fx, fy float32
	Paints         []image.Image // src of every Draw
	Rects          []image.Rectangle
	SPs            []image.Point // source point of every Draw
	Limit          int           // > 0: panic with WorkLimit once the log is that long (a guard for the work monitors)
}

// WorkLimit is the panic value of a recording rasteriser that was given a Limit.
type WorkLimit struct{}

func (r *RecRaster) add(s string) {
	// (without a Limit: two million entries — far above anything the suites draw, where every Destination call makes
	// at most four rasteriser calls; a run-away Renderer would otherwise exhaust the memory of the harness)
	if (r.Limit > 0 && len(r.Log) >= r.Limit) || len(r.Log) >= 2000000 {
		panic(WorkLimit{})
	}
	r.Log = append(r.Log, s)
	r.NCalls++
}
func (r *RecRaster) Reset(w, h int) {
	r.w, r.h = w, h
	r.px, r.py, r.fx, r.fy = 0, 0, 0, 0
	r.add(fmt.Sprintf("R %d %d", w, h))
}

// Fresh makes the recorder behave like a newly made rasteriser (no size, pen at the origin) that
// writes to the same log.
func (r *RecRaster) Fresh()                  { r.w, r.h, r.px, r.py, r.fx, r.fy = 0, 0, 0, 0, 0, 0 }
func (r *RecRaster) Size() image.Point       { return image.Point{r.w, r.h} }
func (r *RecRaster) Bounds() image.Rectangle { return image.Rect(0, 0, r.w, r.h) }
func (r *RecRaster) Pen() (x, y float32)     { return r.px, r.py }
func (r *RecRaster) MoveTo(ax, ay float32) {
	r.px, r.py, r.fx, r.fy = ax, ay, ax, ay
	r.add("M " + showF32A(ax) + " " + showF32A(ay))
}
func (r *RecRaster) LineTo(bx, by float32) {
	r.px, r.py = bx, by
	r.NSegs++
	r.add("L " + showF32A(bx) + " " + showF32A(by))
}
func (r *RecRaster) QuadTo(bx, by, cx, cy float32) {
	r.px, r.py = cx, cy
	r.NSegs++
	r.add("Q " + showF32A(bx) + " " + showF32A(by) + " " + showF32A(cx) + " " + showF32A(cy))
}
func (r *RecRaster) CubeTo(bx, by, cx, cy, dx, dy float32) {
	r.px, r.py = dx, dy
	r.NSegs++
	r.add("C " + showF32A(bx) + " " + showF32A(by) + " " + showF32A(cx) + " " + showF32A(cy) + " " + showF32A(dx) + " " + showF32A(dy))
}
func (r *RecRaster) ClosePath() {
	r.px, r.py = r.fx, r.fy
	r.add("Z")
}
func (r *RecRaster) Draw(rect image.Rectangle, src image.Image, sp image.Point) {
	r.Paints = append(r.Paints, src)
	r.Rects = append(r.Rects, rect)
	r.SPs = append(r.SPs, sp)
	s := fmt.Sprintf("D %d %d %d %d %s", rect.Min.X, rect.Min.Y, rect.Max.X, rect.Max.Y, ShowPaint(src, r.Samples))
	if sp != (image.Point{}) {
		s += fmt.Sprintf(" sp=%d,%d", sp.X, sp.Y)
	}
	r.add(s)
}

var _ raster.Rasterizer = (*RecRaster)(nil)

// ShowPaint renders the src image passed to Draw: a uniform colour or a gradient via the
// raster.GradientConfig accessors, plus At samples.
func ShowPaint(src image.Image, samples []image.Point) string {
	if u, ok := src.(*image.Uniform); ok {
		c := color.RGBAModel.Convert(u.C).(color.RGBA)
		if cc, ok := u.C.(*color.RGBA); ok {
			c = *cc
		}
		return "U" + HexRGBA(c)
	}
	g, ok := src.(raster.GradientConfig)
	if !ok {
		return fmt.Sprintf("?%T", src)
	}
	offs, cols := g.StopOffsets(), g.StopColors()
	var st []string
	for i := range offs {
		st = append(st, showF64A(offs[i])+"."+HexRGBA(cols[i]))
	}
	a, b, c, d, e, f := g.Transform()
	tr := []string{showF64A(a), showF64A(b), showF64A(c), showF64A(d), showF64A(e), showF64A(f)}
	s := fmt.Sprintf("G%d%d:%d:%s:%s", g.GradientShape(), g.SpreadMethod(), len(offs), strings.Join(st, ","), strings.Join(tr, "."))
	if len(samples) > 0 {
		var at []string
		for _, p := range samples {
			r, gg, bb, aa := src.At(p.X, p.Y).RGBA()
			at = append(at, fmt.Sprintf("%04x.%04x.%04x.%04x", r, gg, bb, aa))
		}
		s += ":@" + strings.Join(at, ",")
	}
	return s
}

// PenSelfTest drives the real vector.Rasterizer and RecRaster with the same calls and compares pens.
func PenSelfTest(r *RNG) error {
	var v vector.Rasterizer
	rec := &RecRaster{}
	v.Reset(64, 64)
	rec.Reset(64, 64)
	for i := 0; i < 200; i++ {
		a, b, c, d, e, f := float32(r.Intn(640))/10, float32(r.Intn(640))/10, float32(r.Intn(640))/10, float32(r.Intn(640))/10, float32(r.Intn(640))/10, float32(r.Intn(640))/10
		switch r.Intn(6) {
		case 0:
			v.MoveTo(a, b)
			rec.MoveTo(a, b)
		case 1:
			v.LineTo(a, b)
			rec.LineTo(a, b)
		case 2:
			v.QuadTo(a, b, c, d)
			rec.QuadTo(a, b, c, d)
		case 3:
			v.CubeTo(a, b, c, d, e, f)
			rec.CubeTo(a, b, c, d, e, f)
		case 4:
			v.ClosePath()
			rec.ClosePath()
		default:
			v.Reset(64, 64)
			rec.Reset(64, 64)
		}
		x1, y1 := v.Pen()
		x2, y2 := rec.Pen()
		if x1 != x2 || y1 != y2 {
			return fmt.Errorf("pen contract mismatch after step %d: vector (%v,%v) recorder (%v,%v)", i, x1, y1, x2, y2)
		}
	}
	return nil
}
