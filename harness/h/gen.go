package h

import (
	"image/color"

	"github.com/reactivego/ivg"
)

// ---------- colours, palettes, viewBoxes ----------

var oneByteVals = []uint8{0x00, 0x40, 0x80, 0xc0, 0xff}

func (r *RNG) Premul() color.RGBA {
	a := uint8(r.Intn(256))
	switch r.Intn(4) {
	case 0:
		a = 0xff
	case 1:
		a = uint8(r.Intn(4)) * 0x40
	}
	ch := func() uint8 {
		if a == 0 {
			return 0
		}
		switch r.Intn(4) {
		case 0:
			return a
		case 1:
			return 0
		}
		return uint8(r.Intn(int(a) + 1))
	}
	return color.RGBA{ch(), ch(), ch(), a}
}

// RGBAAny draws an RGBA from every encoding class, valid or not.
func (r *RNG) RGBAAny() color.RGBA {
	switch r.Intn(9) {
	case 0: // 1-byte encodable opaque
		return color.RGBA{oneByteVals[r.Intn(5)], oneByteVals[r.Intn(5)], oneByteVals[r.Intn(5)], 0xff}
	case 1: // the three special translucent greys and near misses
		v := []uint8{0x00, 0x80, 0xc0, 0x40}[r.Intn(4)]
		c := color.RGBA{v, v, v, v}
		if r.Chance(30) {
			c.R = oneByteVals[r.Intn(5)]
		}
		return c
	case 2: // Is1 but not necessarily Encode1-able
		return color.RGBA{oneByteVals[r.Intn(5)], oneByteVals[r.Intn(5)], oneByteVals[r.Intn(5)], oneByteVals[r.Intn(5)]}
	case 3: // 2-byte encodable
		return color.RGBA{0x11 * uint8(r.Intn(16)), 0x11 * uint8(r.Intn(16)), 0x11 * uint8(r.Intn(16)), 0x11 * uint8(r.Intn(16))}
	case 4: // opaque, 3-byte
		return color.RGBA{uint8(r.Intn(256)), uint8(r.Intn(256)), uint8(r.Intn(256)), 0xff}
	case 5: // gradient-looking
		return ivg.EncodeGradient(uint8(r.Intn(64)), uint8(r.Intn(64)), uint8(r.Intn(2)), uint8(r.Intn(4)), uint8(r.Intn(64)))
	case 6: // non-premultiplied, not a gradient
		return color.RGBA{uint8(r.Intn(256)), uint8(r.Intn(256)), uint8(r.Intn(128)), uint8(r.Intn(200))}
	case 7:
		return r.Premul()
	default:
		u := r.U64()
		return color.RGBA{uint8(u), uint8(u >> 8), uint8(u >> 16), uint8(u >> 24)}
	}
}

func (r *RNG) OneByteColorByte() uint8 {
	switch r.Intn(4) {
	case 0:
		return uint8(r.Intn(128)) // direct incl. 125..127
	case 1:
		return 0x80 | uint8(r.Intn(64))
	case 2:
		return 0xc0 | uint8(r.Intn(64))
	default:
		return uint8(r.Intn(256))
	}
}

// Color draws an ivg.Color of every kind.
func (r *RNG) Color() ivg.Color {
	switch r.Intn(8) {
	case 0:
		return ivg.PaletteIndexColor(uint8(r.Intn(256)))
	case 1:
		return ivg.CRegColor(uint8(r.Intn(256)))
	case 2, 3:
		t := uint8(r.Intn(256))
		if r.Chance(30) {
			t = []uint8{0, 255, 128, 1, 254}[r.Intn(5)]
		}
		return ivg.BlendColor(t, r.OneByteColorByte(), r.OneByteColorByte())
	default:
		return ivg.RGBAColor(r.RGBAAny())
	}
}

// Palette draws a premultiplied suggested palette with a random number of explicit entries.
func (r *RNG) Palette() [64]color.RGBA {
	p := ivg.DefaultPalette
	if r.Chance(15) {
		return p
	}
	n := 1 + r.Intn(64)
	if r.Chance(50) {
		n = 1 + r.Intn(5)
	}
	class := r.Intn(5)
	for i := 0; i < n; i++ {
		var c color.RGBA
		switch class {
		case 0:
			c = color.RGBA{oneByteVals[r.Intn(5)], oneByteVals[r.Intn(5)], oneByteVals[r.Intn(5)], 0xff}
			if r.Chance(20) {
				v := []uint8{0x00, 0x80, 0xc0}[r.Intn(3)]
				c = color.RGBA{v, v, v, v}
			}
		case 1: // Is1-but-premultiplied mixes such as 40:40:40:40
			a := oneByteVals[r.Intn(5)]
			pick := func() uint8 {
				v := oneByteVals[r.Intn(5)]
				if v > a {
					return a
				}
				return v
			}
			c = color.RGBA{pick(), pick(), pick(), a}
		case 2:
			a := uint8(r.Intn(16))
			c = color.RGBA{0x11 * uint8(r.Intn(int(a)+1)), 0x11 * uint8(r.Intn(int(a)+1)), 0x11 * uint8(r.Intn(int(a)+1)), 0x11 * a}
		case 3:
			c = color.RGBA{uint8(r.Intn(256)), uint8(r.Intn(256)), uint8(r.Intn(256)), 0xff}
		default:
			c = r.Premul()
		}
		p[i] = c
	}
	return p
}

// ViewBox draws a finite valid viewBox (min <= max), sometimes default, sometimes degenerate.
func (r *RNG) ViewBox() ivg.ViewBox {
	switch r.Intn(8) {
	case 0:
		return ivg.DefaultViewBox
	case 1:
		return ivg.ViewBox{MinX: -24, MinY: -24, MaxX: 24, MaxY: 24}
	case 2: // degenerate
		x := r.Coord()
		return ivg.ViewBox{MinX: x, MinY: 0, MaxX: x, MaxY: 10}
	case 3: // fractional / 4-byte
		x0, y0 := r.Coord()/3, r.Coord()/3
		return ivg.ViewBox{MinX: x0, MinY: y0, MaxX: x0 + float32(1+r.Intn(500))/7, MaxY: y0 + float32(1+r.Intn(500))/3}
	case 4: // large
		return ivg.ViewBox{MinX: -float32(r.Intn(100000)), MinY: float32(r.Intn(1000)), MaxX: float32(r.Intn(100000) + 1), MaxY: float32(r.Intn(100000) + 1000)}
	default:
		x0, y0 := r.Coord(), r.Coord()
		return ivg.ViewBox{MinX: x0, MinY: y0, MaxX: x0 + float32(1+r.Intn(200)), MaxY: y0 + float32(1+r.Intn(200))}
	}
}

// ---------- programs ----------

type ProgOpts struct {
	Wild      bool // numbers from every float class (else moderate finite coordinates)
	Arcs      bool
	Reset     int // 0: never, 1: always first, 2: random
	MaxPaths  int
	MaxRun    int  // maximal run length of one verb
	Histories bool // insert rc/rn/bytes/hires ops
	Malformed int  // percent chance per step of a protocol violation
	OpenEnd   int  // percent chance that the last path is left open
}

var drawVerbs = []string{"L", "l", "T", "t", "Q", "q", "S", "s", "C", "c", "H", "h", "V", "v", "Y", "y"}

func (r *RNG) num(o ProgOpts) float32 {
	if o.Wild {
		return r.F32()
	}
	return r.Coord()
}

func (r *RNG) Styling(o ProgOpts) Call {
	adj := uint8(r.Intn(7))
	incr := r.Chance(30)
	if incr {
		adj = 0
	}
	switch r.Intn(10) {
	case 0, 1:
		v := uint8(r.Intn(64))
		if r.Chance(20) {
			v = []uint8{0, 63, 62, 1, 200, 255, 64}[r.Intn(7)]
		}
		return Call{Name: "csel", U8: v}
	case 2:
		v := uint8(r.Intn(64))
		if r.Chance(20) {
			v = []uint8{0, 63, 62, 1, 200, 255, 64}[r.Intn(7)]
		}
		return Call{Name: "nsel", U8: v}
	case 3, 4, 5, 6:
		return Call{Name: "creg", Adj: adj, Incr: incr, Col: r.Color()}
	case 7, 8:
		return Call{Name: "nreg", Adj: adj, Incr: incr, F: fl(r.F32())}
	default:
		a, b := r.F32(), r.F32()
		if r.Chance(50) {
			a, b = float32(r.Intn(100)), float32(r.Intn(200))
		}
		if r.Chance(20) {
			b = bits(0x7f800000)
		}
		return Call{Name: "lod", F: fl(a, b)}
	}
}

func (r *RNG) DrawCall(o ProgOpts, name string) Call {
	if name == "A" || name == "a" {
		return Call{Name: name, F: fl(r.num(o), r.num(o), r.F32(), r.num(o), r.num(o)), La: r.Bool(), Sw: r.Bool()}
	}
	n := NArgs(name)
	f := make([]float32, n)
	for i := range f {
		f[i] = r.num(o)
	}
	return Call{Name: name, F: f}
}

func (r *RNG) runLen(o ProgOpts) int {
	max := o.MaxRun
	if max <= 0 {
		max = 70
		if r.Chance(1) {
			// a run longer than any 8-bit counter
			return []int{255, 256, 257, 300, 511, 512, 513, 600}[r.Intn(8)]
		}
	}
	switch r.Intn(10) {
	case 0:
		return 1 + r.Intn(max)
	case 1:
		return []int{15, 16, 17, 31, 32, 33, 48, 64, 65}[r.Intn(9)]%max + 1
	default:
		return 1 + r.Intn(4)
	}
}

// Program draws a call history. With Malformed == 0 and OpenEnd == 0 it obeys the
// styling/drawing protocol and ends every path.
func (r *RNG) Program(o ProgOpts) []Call {
	var cs []Call
	if o.Reset == 1 || (o.Reset == 2 && r.Chance(60)) {
		cs = append(cs, Call{Name: "reset", VB: r.ViewBox(), Pal: r.Palette()})
	}
	extra := func() {
		if !o.Histories {
			return
		}
		for r.Chance(25) {
			switch r.Intn(5) {
			case 0:
				cs = append(cs, Call{Name: "rc"})
			case 1:
				cs = append(cs, Call{Name: "rn"})
			case 2:
				cs = append(cs, Call{Name: "bytes"})
			case 3:
				cs = append(cs, Call{Name: "hires", B: r.Bool()})
			default:
				cs = append(cs, Call{Name: "rlod"})
			}
		}
	}
	bad := func(inPath bool) bool {
		if o.Malformed == 0 || !r.Chance(o.Malformed) {
			return false
		}
		switch r.Intn(6) {
		case 0: // wrong-mode op
			if inPath {
				cs = append(cs, r.Styling(o))
			} else {
				cs = append(cs, r.DrawCall(o, drawVerbs[r.Intn(len(drawVerbs))]))
			}
		case 1: // bad adj
			c := Call{Name: []string{"creg", "nreg", "start"}[r.Intn(3)], Adj: uint8(7 + r.Intn(249)), Col: r.Color(), F: fl(r.num(o), r.num(o))}
			cs = append(cs, c)
		case 2: // incrementing with non-zero adj
			c := Call{Name: []string{"creg", "nreg"}[r.Intn(2)], Adj: uint8(1 + r.Intn(6)), Incr: true, Col: r.Color(), F: fl(r.num(o))}
			cs = append(cs, c)
		case 3: // start inside path / Z outside
			if inPath {
				cs = append(cs, Call{Name: "start", Adj: uint8(r.Intn(7)), F: fl(r.num(o), r.num(o))})
			} else {
				cs = append(cs, Call{Name: "Z"})
			}
		case 4: // reset in the middle
			cs = append(cs, Call{Name: "reset", VB: r.ViewBox(), Pal: r.Palette()})
		default:
			cs = append(cs, Call{Name: "bytes"})
		}
		return true
	}
	nPaths := r.Intn(o.MaxPaths + 1)
	for p := 0; p < nPaths; p++ {
		for r.Chance(60) {
			extra()
			bad(false)
			cs = append(cs, r.Styling(o))
		}
		extra()
		cs = append(cs, Call{Name: "start", Adj: uint8(r.Intn(7)), F: fl(r.num(o), r.num(o))})
		nRuns := 1 + r.Intn(5)
		for k := 0; k < nRuns; k++ {
			extra()
			bad(true)
			verb := drawVerbs[r.Intn(len(drawVerbs))]
			if o.Arcs && r.Chance(15) {
				verb = []string{"A", "a"}[r.Intn(2)]
			}
			n := r.runLen(o)
			if verb == "Y" || verb == "y" {
				n = 1 + r.Intn(2)
			}
			for i := 0; i < n; i++ {
				cs = append(cs, r.DrawCall(o, verb))
			}
		}
		if p == nPaths-1 && o.OpenEnd > 0 && r.Chance(o.OpenEnd) {
			break
		}
		extra()
		cs = append(cs, Call{Name: "Z"})
	}
	for r.Chance(30) {
		cs = append(cs, r.Styling(o))
	}
	extra()
	return cs
}

// IsDest reports whether c is a Destination call (not a history-only op).
func (c Call) IsDest() bool {
	switch c.Name {
	case "rc", "rn", "rlod", "bytes", "hires", "rast":
		return false
	}
	return true
}
