// Package h is the correspondence harness library: the line protocol shared
// with the Lean driver (see /verif/PROTOCOL.md), a recording Destination and
// Rasterizer, the PRNG and the generators.
package h

import (
	"fmt"
	"image"
	"image/color"
	"math"
	"reflect"
	"strings"

	"github.com/reactivego/ivg"
)

// Call is one Destination call (or one of the extra Encoder-history ops).
type Call struct {
	Name   string // reset csel nsel creg nreg lod start Z H h V v L l T t Y y Q q S s C c A a | rc rn rlod bytes hires
	Adj    uint8
	Incr   bool
	Col    ivg.Color
	F      []float32
	La, Sw bool
	VB     ivg.ViewBox
	Pal    [64]color.RGBA
	U8     uint8
	B      bool
	Rect   image.Rectangle // rast: SetRasterizer with a fresh rasteriser over this rectangle (renderer histories only)
}

func HexF32(f float32) string { return fmt.Sprintf("%08x", math.Float32bits(f)) }
func HexF64(f float64) string { return fmt.Sprintf("%016x", math.Float64bits(f)) }
func HexRGBA(c color.RGBA) string {
	return fmt.Sprintf("%02x%02x%02x%02x", c.R, c.G, c.B, c.A)
}
func HexBytes(b []byte) string {
	if len(b) == 0 {
		return "-"
	}
	return fmt.Sprintf("%x", b)
}
func B01(b bool) string {
	if b {
		return "1"
	}
	return "0"
}

func ShowPalette(p [64]color.RGBA) string {
	if p == ivg.DefaultPalette {
		return "D"
	}
	var sb strings.Builder
	for _, c := range p {
		sb.WriteString(HexRGBA(c))
	}
	return sb.String()
}

// ColorParts recovers (type, data) of an ivg.Color through its public API.
func ColorParts(c ivg.Color) (typ int, data color.RGBA) {
	// read the two (unexported) fields directly: the classification must not depend on the behaviour of the
	// library's own encoders, which are under test
	if v := reflect.ValueOf(c); v.Kind() == reflect.Struct {
		t, d := v.FieldByName("typ"), v.FieldByName("data")
		if t.IsValid() && d.IsValid() && d.Kind() == reflect.Struct && d.NumField() == 4 && t.Kind() >= reflect.Uint && t.Kind() <= reflect.Uint64 {
			data = color.RGBA{uint8(d.Field(0).Uint()), uint8(d.Field(1).Uint()), uint8(d.Field(2).Uint()), uint8(d.Field(3).Uint())}
			switch t.Uint() {
			case 0:
				return 0, data
			case 1:
				return 1, color.RGBA{R: data.R & 0x3f}
			case 2:
				return 2, color.RGBA{R: data.R & 0x3f}
			case 3:
				return 3, color.RGBA{data.R, data.G, data.B, 0}
			}
		}
	}
	if x, ok := c.Encode4(); ok {
		return 0, color.RGBA{x[0], x[1], x[2], x[3]}
	}
	if x, ok := c.Encode3Indirect(); ok {
		return 3, color.RGBA{x[0], x[1], x[2], 0}
	}
	if x, ok := c.Encode1(); ok {
		if x >= 0xc0 {
			return 2, color.RGBA{R: x & 0x3f}
		}
		return 1, color.RGBA{R: x & 0x3f}
	}
	panic("unclassifiable ivg.Color")
}

func MakeColor(typ int, d color.RGBA) ivg.Color {
	switch typ {
	case 0:
		return ivg.RGBAColor(d)
	case 1:
		return ivg.PaletteIndexColor(d.R)
	case 2:
		return ivg.CRegColor(d.R)
	default:
		return ivg.BlendColor(d.R, d.G, d.B)
	}
}

func ShowColor(c ivg.Color) string {
	t, d := ColorParts(c)
	return fmt.Sprintf("%d%s", t, HexRGBA(d))
}

func (c Call) String() string {
	fs := func() string {
		var sb strings.Builder
		for _, f := range c.F {
			sb.WriteByte(' ')
			sb.WriteString(HexF32(f))
		}
		return sb.String()
	}
	switch c.Name {
	case "reset":
		return fmt.Sprintf("reset %s %s %s %s %s", HexF32(c.VB.MinX), HexF32(c.VB.MinY), HexF32(c.VB.MaxX), HexF32(c.VB.MaxY), ShowPalette(c.Pal))
	case "csel", "nsel":
		return fmt.Sprintf("%s %d", c.Name, c.U8)
	case "creg":
		return fmt.Sprintf("creg %d %s %s", c.Adj, B01(c.Incr), ShowColor(c.Col))
	case "nreg":
		return fmt.Sprintf("nreg %d %s %s", c.Adj, B01(c.Incr), HexF32(c.F[0]))
	case "lod":
		return "lod" + fs()
	case "start":
		return fmt.Sprintf("start %d%s", c.Adj, fs())
	case "Z", "rc", "rn", "rlod", "bytes":
		return c.Name
	case "hires":
		return "hires " + B01(c.B)
	case "rast":
		return fmt.Sprintf("rast %d %d %d %d", c.Rect.Min.X, c.Rect.Min.Y, c.Rect.Max.X, c.Rect.Max.Y)
	case "A", "a":
		return fmt.Sprintf("%s %s %s %s %s %s %s %s", c.Name, HexF32(c.F[0]), HexF32(c.F[1]), HexF32(c.F[2]), B01(c.La), B01(c.Sw), HexF32(c.F[3]), HexF32(c.F[4]))
	default:
		return c.Name + fs()
	}
}

func ShowCalls(cs []Call) string {
	if len(cs) == 0 {
		return "-"
	}
	ss := make([]string, len(cs))
	for i, c := range cs {
		ss[i] = c.String()
	}
	return strings.Join(ss, " ; ")
}

// Apply performs a Destination call (not the extra history ops).
func (c Call) Apply(d ivg.Destination) {
	f := c.F
	switch c.Name {
	case "reset":
		d.Reset(c.VB, c.Pal)
	case "csel":
		d.SetCSel(c.U8)
	case "nsel":
		d.SetNSel(c.U8)
	case "creg":
		d.SetCReg(c.Adj, c.Incr, c.Col)
	case "nreg":
		d.SetNReg(c.Adj, c.Incr, f[0])
	case "lod":
		d.SetLOD(f[0], f[1])
	case "start":
		d.StartPath(c.Adj, f[0], f[1])
	case "Z":
		d.ClosePathEndPath()
	case "Y":
		d.ClosePathAbsMoveTo(f[0], f[1])
	case "y":
		d.ClosePathRelMoveTo(f[0], f[1])
	case "H":
		d.AbsHLineTo(f[0])
	case "h":
		d.RelHLineTo(f[0])
	case "V":
		d.AbsVLineTo(f[0])
	case "v":
		d.RelVLineTo(f[0])
	case "L":
		d.AbsLineTo(f[0], f[1])
	case "l":
		d.RelLineTo(f[0], f[1])
	case "T":
		d.AbsSmoothQuadTo(f[0], f[1])
	case "t":
		d.RelSmoothQuadTo(f[0], f[1])
	case "Q":
		d.AbsQuadTo(f[0], f[1], f[2], f[3])
	case "q":
		d.RelQuadTo(f[0], f[1], f[2], f[3])
	case "S":
		d.AbsSmoothCubeTo(f[0], f[1], f[2], f[3])
	case "s":
		d.RelSmoothCubeTo(f[0], f[1], f[2], f[3])
	case "C":
		d.AbsCubeTo(f[0], f[1], f[2], f[3], f[4], f[5])
	case "c":
		d.RelCubeTo(f[0], f[1], f[2], f[3], f[4], f[5])
	case "A":
		d.AbsArcTo(f[0], f[1], f[2], c.La, c.Sw, f[3], f[4])
	case "a":
		d.RelArcTo(f[0], f[1], f[2], c.La, c.Sw, f[3], f[4])
	case "rast":
		// history-only operation of renderer cases; no Destination method
	default:
		panic("Apply: not a Destination call: " + c.Name)
	}
}

// NArgs is the number of float operands of a drawing verb.
func NArgs(name string) int {
	switch name {
	case "H", "h", "V", "v":
		return 1
	case "L", "l", "T", "t", "Y", "y":
		return 2
	case "Q", "q", "S", "s":
		return 4
	case "C", "c":
		return 6
	case "A", "a":
		return 5
	}
	return 0
}

// Recorder is an ivg.Destination that records the calls it receives.  Its
// CSel/NSel behave like the specification's selector registers.
type Recorder struct {
	Calls      []Call
	cSel, nSel uint8
}

func (r *Recorder) add(c Call)  { r.Calls = append(r.Calls, c) }
func fl(f ...float32) []float32 { return append([]float32(nil), f...) }

func (r *Recorder) Reset(vb ivg.ViewBox, pal [64]color.RGBA) {
	r.cSel, r.nSel = 0, 0
	r.add(Call{Name: "reset", VB: vb, Pal: pal})
}
func (r *Recorder) CSel() uint8 { return r.cSel }
func (r *Recorder) NSel() uint8 { return r.nSel }
func (r *Recorder) SetCSel(v uint8) {
	r.cSel = v & 0x3f
	r.add(Call{Name: "csel", U8: v})
}
func (r *Recorder) SetNSel(v uint8) {
	r.nSel = v & 0x3f
	r.add(Call{Name: "nsel", U8: v})
}
func (r *Recorder) SetCReg(adj uint8, incr bool, c ivg.Color) {
	if incr {
		r.cSel = (r.cSel + 1) & 0x3f
	}
	r.add(Call{Name: "creg", Adj: adj, Incr: incr, Col: c})
}
func (r *Recorder) SetNReg(adj uint8, incr bool, f float32) {
	if incr {
		r.nSel = (r.nSel + 1) & 0x3f
	}
	r.add(Call{Name: "nreg", Adj: adj, Incr: incr, F: fl(f)})
}
func (r *Recorder) SetLOD(a, b float32) { r.add(Call{Name: "lod", F: fl(a, b)}) }
func (r *Recorder) StartPath(adj uint8, x, y float32) {
	r.add(Call{Name: "start", Adj: adj, F: fl(x, y)})
}
func (r *Recorder) ClosePathEndPath()               { r.add(Call{Name: "Z"}) }
func (r *Recorder) ClosePathAbsMoveTo(x, y float32) { r.add(Call{Name: "Y", F: fl(x, y)}) }
func (r *Recorder) ClosePathRelMoveTo(x, y float32) { r.add(Call{Name: "y", F: fl(x, y)}) }
func (r *Recorder) AbsHLineTo(x float32)            { r.add(Call{Name: "H", F: fl(x)}) }
func (r *Recorder) RelHLineTo(x float32)            { r.add(Call{Name: "h", F: fl(x)}) }
func (r *Recorder) AbsVLineTo(y float32)            { r.add(Call{Name: "V", F: fl(y)}) }
func (r *Recorder) RelVLineTo(y float32)            { r.add(Call{Name: "v", F: fl(y)}) }
func (r *Recorder) AbsLineTo(x, y float32)          { r.add(Call{Name: "L", F: fl(x, y)}) }
func (r *Recorder) RelLineTo(x, y float32)          { r.add(Call{Name: "l", F: fl(x, y)}) }
func (r *Recorder) AbsSmoothQuadTo(x, y float32)    { r.add(Call{Name: "T", F: fl(x, y)}) }
func (r *Recorder) RelSmoothQuadTo(x, y float32)    { r.add(Call{Name: "t", F: fl(x, y)}) }
func (r *Recorder) AbsQuadTo(a, b, x, y float32)    { r.add(Call{Name: "Q", F: fl(a, b, x, y)}) }
func (r *Recorder) RelQuadTo(a, b, x, y float32)    { r.add(Call{Name: "q", F: fl(a, b, x, y)}) }
func (r *Recorder) AbsSmoothCubeTo(a, b, x, y float32) {
	r.add(Call{Name: "S", F: fl(a, b, x, y)})
}
func (r *Recorder) RelSmoothCubeTo(a, b, x, y float32) {
	r.add(Call{Name: "s", F: fl(a, b, x, y)})
}
func (r *Recorder) AbsCubeTo(a, b, c, d, x, y float32) {
	r.add(Call{Name: "C", F: fl(a, b, c, d, x, y)})
}
func (r *Recorder) RelCubeTo(a, b, c, d, x, y float32) {
	r.add(Call{Name: "c", F: fl(a, b, c, d, x, y)})
}
func (r *Recorder) AbsArcTo(rx, ry, rot float32, la, sw bool, x, y float32) {
	r.add(Call{Name: "A", F: fl(rx, ry, rot, x, y), La: la, Sw: sw})
}
func (r *Recorder) RelArcTo(rx, ry, rot float32, la, sw bool, x, y float32) {
	r.add(Call{Name: "a", F: fl(rx, ry, rot, x, y), La: la, Sw: sw})
}

var _ ivg.Destination = (*Recorder)(nil)

// ErrStr canonicalises an error for the protocol.
func ErrStr(err error) string {
	if err == nil {
		return "ok"
	}
	return strings.ReplaceAll(err.Error(), " ", "_")
}
