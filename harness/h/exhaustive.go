package h

import (
	"fmt"
	"image/color"
	"math"

	"github.com/reactivego/ivg"
	"github.com/reactivego/ivg/decode"
	"github.com/reactivego/ivg/encode"
	"github.com/reactivego/ivg/render"
)

// Exhaustive passes of the thorough tier: EVERY float32 bit pattern (C08) and EVERY 4-byte colour (C09)
// through the public encoder and decoder, judged by the property's own predicates.  They involve the
// implementation only (the Lean model side of these clauses is proved for all values); the 2^32 values
// are divided over the shards.

// numSink records the operands the decoder delivers.
type numSink struct {
	ivg.Destination
	lod0, lod1, nreg float32
	sx, sy, lx, ly   float32
	col              ivg.Color
	nCalls           int
}

func (r *numSink) Reset(ivg.ViewBox, [64]color.RGBA)         {}
func (r *numSink) SetCSel(uint8)                             {}
func (r *numSink) SetNSel(uint8)                             {}
func (r *numSink) SetLOD(a, b float32)                       { r.lod0, r.lod1 = a, b; r.nCalls++ }
func (r *numSink) SetNReg(adj uint8, incr bool, f float32)   { r.nreg = f; r.nCalls++ }
func (r *numSink) SetCReg(adj uint8, incr bool, c ivg.Color) { r.col = c; r.nCalls++ }
func (r *numSink) StartPath(adj uint8, x, y float32)         { r.sx, r.sy = x, y; r.nCalls++ }
func (r *numSink) AbsLineTo(x, y float32)                    { r.lx, r.ly = x, y; r.nCalls++ }
func (r *numSink) ClosePathEndPath()                         { r.nCalls++ }

// exhaustiveNumbers runs the float32 values of this shard's slice of the 2^32 bit patterns: each value as
// both LOD bounds, as a number register, and as the coordinates of a low-resolution and of a
// high-resolution path, in one encoded graphic.
func exhaustiveNumbers(s *Shard, nShards int) {
	lo := uint64(s.Index) << 32 / uint64(nShards)
	hi := uint64(s.Index+1) << 32 / uint64(nShards)
	var e encode.Encoder
	sink := &exhSink{}
	nFail := 0
	bad := func(clause string, f float32, detail string) {
		nFail++
		if nFail > 20 {
			return
		}
		cs := []Call{{Name: "lod", F: fl(f, f)}, {Name: "nreg", Adj: 1, F: fl(f)}, {Name: "start", F: fl(f, f)}, {Name: "L", F: fl(f, f)}, {Name: "Z"},
			{Name: "hires", B: true}, {Name: "start", F: fl(f, f)}, {Name: "L", F: fl(f, f)}, {Name: "Z"}}
		s.Fail(clause, EncCase(cs), fmt.Sprintf("float32 %s: %s", HexF32(f), detail))
	}
	for u := lo; u < hi; u++ {
		f := math.Float32frombits(uint32(u))
		e.Reset(ivg.DefaultViewBox, ivg.DefaultPalette)
		e.SetLOD(f, f)
		e.SetNReg(1, false, f)
		e.StartPath(0, f, f)
		e.AbsLineTo(f, f)
		e.ClosePathEndPath()
		e.HighResolutionCoordinates = true
		e.StartPath(0, f, f)
		e.AbsLineTo(f, f)
		e.ClosePathEndPath()
		bs, err := e.Bytes()
		if err != nil {
			bad("C08.encodes", f, err.Error())
			continue
		}
		sink.n = 0
		if derr := decode.Decode(sink, bs); derr != nil || sink.n != 11 {
			bad("C08.decodes", f, fmt.Sprint("decoding the encoder's bytes: ", derr, ", ", sink.n, " numbers delivered"))
			continue
		}
		v := &sink.v
		if !RealOK(f, v[0]) || !RealOK(f, v[1]) {
			bad("C08.real", f, "SetLOD decodes to "+HexF32(v[0])+" "+HexF32(v[1]))
		}
		if !NRegOK(f, v[2]) {
			bad("C08.nreg", f, "SetNReg decodes to "+HexF32(v[2]))
		}
		for k := 3; k < 7; k++ {
			if !CoordOK(f, v[k], false) {
				bad("C08.coordinate", f, "a low-resolution coordinate decodes to "+HexF32(v[k]))
				break
			}
			if -128 <= f && f < 128 && v[k] != nearest64(f) {
				bad("C08.nearest-64th", f, "decodes to "+HexF32(v[k])+", the nearest multiple of 1/64 is "+HexF32(nearest64(f)))
				break
			}
		}
		for k := 7; k < 11; k++ {
			if !CoordOK(f, v[k], true) {
				bad("C08.coordinate", f, "a high-resolution coordinate decodes to "+HexF32(v[k]))
				break
			}
		}
		// shortest forms (naturals, reals, coordinates): header 5, SetLOD, SetNReg, two paths of start + one L + z.
		// The number register may also take a zero-to-one form, which the property does not oblige to be minimal:
		// its length lies between 1 and the shortest real/coordinate form.
		q := nearest64(f)
		fixed := 5 + (1 + 2*realLen(f)) + 1 + 2*(1+2*coordLen(q)) + 1 + 2*(1+2*coordLen(f)) + 1
		nregMax := minInt(realLen(f), coordLen(f))
		if got := len(bs) - fixed; got > nregMax || got < 1 || (got < nregMax && !(0 <= f && f <= 1)) {
			bad("C08.shortest", f, fmt.Sprintf("%d bytes: %d for the number register operand, the shortest exact real/coordinate form takes %d", len(bs), got, nregMax))
		}
	}
	s.counts["exhaustive:float32-bit-patterns"] += int(hi - lo)
}

// exhSink collects the numbers the decoder delivers, in order.
type exhSink struct {
	ivg.Destination
	v [16]float32
	n int
}

func (r *exhSink) put(f ...float32) {
	for _, x := range f {
		if r.n < len(r.v) {
			r.v[r.n] = x
		}
		r.n++
	}
}
func (r *exhSink) Reset(ivg.ViewBox, [64]color.RGBA)       {}
func (r *exhSink) SetLOD(a, b float32)                     { r.put(a, b) }
func (r *exhSink) SetNReg(adj uint8, incr bool, f float32) { r.put(f) }
func (r *exhSink) StartPath(adj uint8, x, y float32)       { r.put(x, y) }
func (r *exhSink) AbsLineTo(x, y float32)                  { r.put(x, y) }
func (r *exhSink) ClosePathEndPath()                       {}

// z2oLenOf: length of the shortest zero-to-one form that represents f exactly (else 4).
func z2oLenOf(f float32) int {
	if !(0 <= f && f <= 1) {
		return 4
	}
	if x := float64(f) * 120; x == math.Floor(x) && float32(x)/120 == f && x < 120 {
		return 1
	}
	if x := float64(f) * 15120; x == math.Floor(x) && x < 15120 {
		return 2
	}
	return 4
}

// exhaustiveColours: every 4-byte pattern as a direct colour through SetCReg and back.
func exhaustiveColours(s *Shard, nShards int) {
	lo := uint64(s.Index) << 32 / uint64(nShards)
	hi := uint64(s.Index+1) << 32 / uint64(nShards)
	var e encode.Encoder
	sink := &numSink{}
	nFail := 0
	for u := lo; u < hi; u++ {
		c := color.RGBA{uint8(u >> 24), uint8(u >> 16), uint8(u >> 8), uint8(u)}
		in := ivg.RGBAColor(c)
		e.Reset(ivg.DefaultViewBox, ivg.DefaultPalette)
		e.SetCReg(uint8(u%7), false, in)
		bs, err := e.Bytes()
		*sink = numSink{}
		var derr error
		if err == nil {
			derr = decode.Decode(sink, bs)
		}
		if err != nil || derr != nil || sink.nCalls != 1 || sink.col != in {
			nFail++
			if nFail <= 20 {
				s.Fail("C09.exact-colour", EncCase([]Call{{Name: "creg", Adj: uint8(u % 7), Col: in}}), fmt.Sprintf("RGBA %08x: encode error %v, decode error %v, delivered %v", uint32(u), err, derr, sink.col))
			}
		}
	}
	s.counts["exhaustive:rgba-4-byte-patterns"] += int(hi - lo)
}

// exhaustiveBlends: every blend (t, c0, c1) — 2^24 triples — through SetCReg and back (exactness), and its
// resolution against the reference machine (blend formula, operand tables) over a palette and registers
// with distinctive contents.
func exhaustiveBlends(s *Shard, nShards int) {
	lo := uint64(s.Index) << 24 / uint64(nShards)
	hi := uint64(s.Index+1) << 24 / uint64(nShards)
	var e encode.Encoder
	sink := &numSink{}
	var m vm
	var pal [64]color.RGBA
	for i := range pal {
		a := uint8(255 - 3*i)
		pal[i] = color.RGBA{uint8(int(i) % (int(a)/2 + 1)), uint8(int(2*i) % (int(a)/3 + 1)), uint8(int(3*i) % (int(a) + 1)), a}
	}
	m.reset(pal)
	for i := range m.creg {
		a := uint8(40 + 3*i)
		m.creg[i] = color.RGBA{uint8(int(5*i) % (int(a) + 1)), uint8(int(7*i) % (int(a)/2 + 1)), uint8(int(11*i) % (int(a)/4 + 1)), a}
	}
	creg := m.creg
	nFail := 0
	for u := lo; u < hi; u++ {
		t, c0, c1 := uint8(u>>16), uint8(u>>8), uint8(u)
		in := ivg.BlendColor(t, c0, c1)
		e.Reset(ivg.DefaultViewBox, ivg.DefaultPalette)
		e.SetCReg(uint8(u%7), false, in)
		bs, err := e.Bytes()
		*sink = numSink{}
		var derr error
		if err == nil {
			derr = decode.Decode(sink, bs)
		}
		got := in.Resolve(&pal, &creg)
		want := m.resolve(in)
		if err != nil || derr != nil || sink.nCalls != 1 || sink.col != in || got != want || !premul(got) {
			nFail++
			if nFail <= 20 {
				s.Fail("C09.blend", EncCase([]Call{{Name: "creg", Adj: uint8(u % 7), Col: in}}), fmt.Sprintf("blend(%d,%#02x,%#02x): encode %v, decode %v, delivered %v, resolves to %v, the blend formula gives %v", t, c0, c1, err, derr, sink.col, got, want))
			}
		}
	}
	s.counts["exhaustive:blend-triples"] += int(hi - lo)
}

// exhaustiveClamp: every float32 value as an offset through the four spread modes, against the property's
// own description (none: outside [0,1] is "no colour"; pad: the nearer end; repeat: the fractional part;
// reflect: a triangle wave of period 2).
func exhaustiveClamp(s *Shard, nShards int) {
	lo := uint64(s.Index) << 32 / uint64(nShards)
	hi := uint64(s.Index+1) << 32 / uint64(nShards)
	nFail := 0
	for u := lo; u < hi; u++ {
		x := float64(math.Float32frombits(uint32(u)))
		if math.IsNaN(x) || math.IsInf(x, 0) {
			continue
		}
		for sp := 0; sp < 4; sp++ {
			got := render.Spread(sp).Clamp(x)
			var want float64
			switch {
			case x >= 0 && x <= 1:
				want = x
			case sp == 0:
				want = -1 // "transparent black": the implementation's marker for no colour
			case sp == 1:
				want = math.Max(0, math.Min(1, x))
			case sp == 3:
				want = x - math.Floor(x)
			default:
				t := math.Mod(math.Abs(x), 2)
				if t > 1 {
					t = 2 - t
				}
				want = t
			}
			// the triangle wave and the fractional part are exact in float64 for float32 arguments
			if got != want && !(math.Abs(got-want) <= 1e-9 && math.Abs(x) > 1e6) {
				nFail++
				if nFail <= 20 {
					s.Fail("C15.spread", fmt.Sprintf("clamp %d %016x |", sp, math.Float64bits(x)), fmt.Sprintf("spread %d at offset %g: Clamp gives %g, the spread mode prescribes %g", sp, x, got, want))
				}
			}
		}
	}
	s.counts["exhaustive:float32-offsets-x-4-spreads"] += int(hi - lo)
}
