package h

import (
	"fmt"
	"image/color"
	"math"

	"github.com/reactivego/ivg"
	"github.com/reactivego/ivg/decode"
	"github.com/reactivego/ivg/encode"
)

// Exhaustive passes of the thorough tier: EVERY float32 bit pattern (C08) and EVERY 4-byte colour (C09)
// through the public encoder and decoder, judged by the property's own predicates.  They involve the
// implementation only (the Lean model side of these clauses is proved for all values); the 2^32 values
// are divided over the shards.

// numSink records the operands the decoder delivers.
type numSink struct {
	ivg.Destination
	lod0, lod1, nreg float32
	sx, sy, lx, ly   float32
	col              ivg.Color
	nCalls           int
}

func (r *numSink) Reset(ivg.ViewBox, [64]color.RGBA)          {}
func (r *numSink) SetCSel(uint8)                               {}
func (r *numSink) SetNSel(uint8)                               {}
func (r *numSink) SetLOD(a, b float32)                         { r.lod0, r.lod1 = a, b; r.nCalls++ }
func (r *numSink) SetNReg(adj uint8, incr bool, f float32)     { r.nreg = f; r.nCalls++ }
func (r *numSink) SetCReg(adj uint8, incr bool, c ivg.Color)   { r.col = c; r.nCalls++ }
func (r *numSink) StartPath(adj uint8, x, y float32)           { r.sx, r.sy = x, y; r.nCalls++ }
func (r *numSink) AbsLineTo(x, y float32)                      { r.lx, r.ly = x, y; r.nCalls++ }
func (r *numSink) ClosePathEndPath()                           { r.nCalls++ }

// exhaustiveNumbers runs the float32 values of this shard's slice of the 2^32 bit patterns.
func exhaustiveNumbers(s *Shard, nShards int) {
	lo := uint64(s.Index) << 32 / uint64(nShards)
	hi := uint64(s.Index+1) << 32 / uint64(nShards)
	var e encode.Encoder
	sink := &numSink{}
	nFail := 0
	bad := func(clause string, f float32, hires bool, detail string) {
		nFail++
		if nFail > 20 {
			return
		}
		cs := []Call{{Name: "hires", B: hires}, {Name: "lod", F: fl(f, f)}, {Name: "nreg", Adj: 1, F: fl(f)}, {Name: "start", F: fl(f, f)}, {Name: "L", F: fl(f, f)}, {Name: "Z"}}
		s.Fail(clause, EncCase(cs), fmt.Sprintf("float32 %s (hires=%v): %s", HexF32(f), hires, detail))
	}
	for u := lo; u < hi; u++ {
		f := math.Float32frombits(uint32(u))
		for _, hires := range []bool{false, true} {
			e.Reset(ivg.DefaultViewBox, ivg.DefaultPalette)
			e.HighResolutionCoordinates = hires
			e.SetLOD(f, f)
			e.SetNReg(1, false, f)
			e.StartPath(0, f, f)
			e.AbsLineTo(f, f)
			e.ClosePathEndPath()
			bs, err := e.Bytes()
			if err != nil {
				bad("C08.encodes", f, hires, err.Error())
				continue
			}
			*sink = numSink{}
			if derr := decode.Decode(sink, bs); derr != nil || sink.nCalls != 5 {
				bad("C08.decodes", f, hires, fmt.Sprint("decoding the encoder's bytes: ", derr, ", ", sink.nCalls, " calls"))
				continue
			}
			if !RealOK(f, sink.lod0) || !RealOK(f, sink.lod1) {
				bad("C08.real", f, hires, "SetLOD decodes to "+HexF32(sink.lod0)+" "+HexF32(sink.lod1))
			}
			if !NRegOK(f, sink.nreg) {
				bad("C08.nreg", f, hires, "SetNReg decodes to "+HexF32(sink.nreg))
			}
			for _, g := range []float32{sink.sx, sink.sy, sink.lx, sink.ly} {
				if !CoordOK(f, g, hires) {
					bad("C08.coordinate", f, hires, "a coordinate decodes to "+HexF32(g))
					break
				}
				if !hires && -128 <= f && f < 128 && g != nearest64(f) {
					bad("C08.nearest-64th", f, hires, "decodes to "+HexF32(g)+", the nearest multiple of 1/64 is "+HexF32(nearest64(f)))
					break
				}
			}
			// shortest forms: 5 header bytes + SetLOD + SetNReg + StartPath + one L + z
			q := f
			if !hires {
				q = nearest64(f)
			}
			want := 5 + (1 + 2*realLen(f)) + (1 + minInt(realLen(f), minInt(coordLen(f), z2oLenOf(f)))) + (1 + 2*coordLen(q)) + (1 + 2*coordLen(q)) + 1
			if len(bs) != want {
				bad("C08.shortest", f, hires, fmt.Sprintf("%d bytes, the shortest exact forms need %d", len(bs), want))
			}
		}
	}
	s.counts["exhaustive:float32-bit-patterns"] += int(hi - lo)
}

// z2oLenOf: length of the shortest zero-to-one form that represents f exactly (else 4).
func z2oLenOf(f float32) int {
	if !(0 <= f && f <= 1) {
		return 4
	}
	if x := float64(f) * 120; x == math.Floor(x) && float32(x)/120 == f && x < 120 {
		return 1
	}
	if x := float64(f) * 15120; x == math.Floor(x) && x < 15120 {
		return 2
	}
	return 4
}

// exhaustiveColours: every 4-byte pattern as a direct colour through SetCReg and back.
func exhaustiveColours(s *Shard, nShards int) {
	lo := uint64(s.Index) << 32 / uint64(nShards)
	hi := uint64(s.Index+1) << 32 / uint64(nShards)
	var e encode.Encoder
	sink := &numSink{}
	nFail := 0
	for u := lo; u < hi; u++ {
		c := color.RGBA{uint8(u >> 24), uint8(u >> 16), uint8(u >> 8), uint8(u)}
		in := ivg.RGBAColor(c)
		e.Reset(ivg.DefaultViewBox, ivg.DefaultPalette)
		e.SetCReg(uint8(u%7), false, in)
		bs, err := e.Bytes()
		*sink = numSink{}
		var derr error
		if err == nil {
			derr = decode.Decode(sink, bs)
		}
		if err != nil || derr != nil || sink.nCalls != 1 || sink.col != in {
			nFail++
			if nFail <= 20 {
				s.Fail("C09.exact-colour", EncCase([]Call{{Name: "creg", Adj: uint8(u % 7), Col: in}}), fmt.Sprintf("RGBA %08x: encode error %v, decode error %v, delivered %v", uint32(u), err, derr, sink.col))
			}
		}
	}
	s.counts["exhaustive:rgba-4-byte-patterns"] += int(hi - lo)
}
