package h

import (
	"bufio"
	"encoding/json"
	"fmt"
	"hash/fnv"
	"os"
	"path/filepath"
	"runtime"
	"runtime/debug"
	"sort"
	"strings"
	"sync"
)

// Shard is one deterministic slice of a suite run.
type Shard struct {
	R       *RNG
	Index   int
	NShards int
	Work    string // scratch directory of this run (under the -out directory)
	Tier    string
	Repo    string
	cases   []string
	obs     []string
	fails   []Failure
	counts  map[string]int
	sigs    map[string]struct{}
}

type Failure struct {
	Clause string `json:"clause"`
	Case   string `json:"case"`
	Detail string `json:"detail"`
}

// Emit records a correspondence case (line for the driver) and the implementation's observation.
func (s *Shard) Emit(caseLine, obs string) {
	s.cases = append(s.cases, caseLine)
	s.obs = append(s.obs, obs)
	// input distribution (reported in the evidence): case kind, size, operations used, outcome
	kind := caseLine
	if i := strings.IndexByte(caseLine, ' '); i > 0 {
		kind = caseLine[:i]
	}
	s.counts["kind:"+kind]++
	switch n := len(caseLine); {
	case n <= 64:
		s.counts["size:<=64"]++
	case n <= 256:
		s.counts["size:<=256"]++
	case n <= 1024:
		s.counts["size:<=1024"]++
	case n <= 8192:
		s.counts["size:<=8192"]++
	default:
		s.counts["size:>8192"]++
	}
	if i := strings.LastIndex(obs, " # "); i >= 0 || strings.HasPrefix(obs, "# ") {
		out := strings.TrimPrefix(obs[i+1:], "# ")
		if j := strings.IndexByte(out, ' '); j > 0 {
			out = out[:j]
		}
		if len(out) > 48 {
			out = out[:48]
		}
		s.counts["outcome:"+out]++
	} else if strings.Contains(obs, "E=") {
		s.counts["outcome:encoder-error"]++
	} else if strings.HasPrefix(obs, "PANIC") {
		s.counts["outcome:PANIC"]++
	}
	if kind == "enc" || kind == "ren" {
		if i := strings.IndexByte(caseLine, '|'); i > 0 {
			for _, part := range strings.Split(caseLine[i+1:], ";") {
				part = strings.TrimSpace(part)
				if j := strings.IndexByte(part, ' '); j > 0 {
					part = part[:j]
				}
				if part != "" && part != "-" {
					s.counts["op:"+part]++
				}
			}
		}
	}
}

// EmitRun emits a case and runs it through the generic case runner.
func (s *Shard) EmitRun(caseLine string) string {
	o := RunCase(caseLine)
	s.Emit(caseLine, o)
	return o
}

// Fail records a monitor failure: the property's own predicate failed on the implementation.
func (s *Shard) Fail(clause, caseLine, detail string) {
	s.fails = append(s.fails, Failure{clause, caseLine, detail})
}

func (s *Shard) Count(tag string) { s.counts[tag]++ }

// Sig records a (branch-signature) class of a non-trivial case, for distinct_nontrivial.
func (s *Shard) Sig(sig string) { s.sigs[sig] = struct{}{} }

type SuiteFunc func(s *Shard, n int)

var Suites = map[string]SuiteFunc{}

// Budget returns the per-tier case count of a suite.
var Budgets = map[string][2]int{}

type Stats struct {
	Suite         string         `json:"suite"`
	Seed          uint64         `json:"seed"`
	Tier          string         `json:"tier"`
	Cases         int            `json:"cases"`
	Distinct      int            `json:"distinct_signatures"`
	DistinctCases int            `json:"distinct_nontrivial_cases"`
	Counts        map[string]int `json:"counts"`
	Failures      []Failure      `json:"failures"`
	Samples       []string       `json:"samples"`
	NFailures     int            `json:"n_failures"`
}

// RunSuite runs a suite in parallel shards and writes cases.txt, impl.txt, stats.json into dir.
func RunSuite(name string, seed uint64, tier, repo, dir string) error {
	fn, ok := Suites[name]
	if !ok {
		return fmt.Errorf("unknown suite %s", name)
	}
	b := Budgets[name]
	total := b[0]
	if tier == "thorough" {
		total = b[1]
	}
	nShards := runtime.NumCPU()
	if nShards > 16 {
		nShards = 16
	}
	if total < nShards {
		nShards = 1
	}
	shards := make([]*Shard, nShards)
	var wg sync.WaitGroup
	for i := range shards {
		shards[i] = &Shard{R: NewRNG(seed*1000003 + uint64(i)), Index: i, NShards: nShards, Work: dir, Tier: tier, Repo: repo, counts: map[string]int{}, sigs: map[string]struct{}{}}
		wg.Add(1)
		go func(s *Shard) {
			defer wg.Done()
			// safety net: a panic that escapes the library through a path no monitor wraps ends this shard, and is
			// itself a finding (nothing in the library may panic on any input of these suites)
			defer func() {
				if p := recover(); p != nil {
					last := ""
					if len(s.cases) > 0 {
						last = s.cases[len(s.cases)-1]
					}
					stack := string(debug.Stack())
					if k := strings.Index(stack, "panic("); k >= 0 {
						stack = stack[k:]
					}
					if len(stack) > 1500 {
						stack = stack[:1500]
					}
					s.Fail(name+".no-panic", last, fmt.Sprintf("panic: %v (the case given is the last one emitted before it) :: %s", p, strings.ReplaceAll(stack, "\n", " | ")))
				}
			}()
			fn(s, total/nShards)
		}(shards[i])
	}
	wg.Wait()
	if err := os.MkdirAll(dir, 0o755); err != nil {
		return err
	}
	cf, err := os.Create(filepath.Join(dir, "cases.txt"))
	if err != nil {
		return err
	}
	of, err := os.Create(filepath.Join(dir, "impl.txt"))
	if err != nil {
		return err
	}
	cw, ow := bufio.NewWriterSize(cf, 1<<20), bufio.NewWriterSize(of, 1<<20)
	st := Stats{Suite: name, Seed: seed, Tier: tier, Counts: map[string]int{}}
	sigs := map[string]struct{}{}
	for _, s := range shards {
		for i := range s.cases {
			cw.WriteString(s.cases[i])
			cw.WriteByte('\n')
			ow.WriteString(s.obs[i])
			ow.WriteByte('\n')
		}
		st.Cases += len(s.cases)
		for k, v := range s.counts {
			st.Counts[k] += v
		}
		for k := range s.sigs {
			sigs[k] = struct{}{}
		}
		st.Failures = append(st.Failures, s.fails...)
		if len(s.cases) > 0 && len(st.Samples) < 4 {
			// a representative case: the median-length one of a window in the middle of the shard
			lo := len(s.cases) / 2
			hi := lo + 9
			if hi > len(s.cases) {
				hi = len(s.cases)
			}
			win := append([]int(nil), make([]int, 0)...)
			for i := lo; i < hi; i++ {
				win = append(win, i)
			}
			sort.Slice(win, func(a, b int) bool { return len(s.cases[win[a]]) < len(s.cases[win[b]]) })
			k := win[len(win)/2]
			c, o := s.cases[k], s.obs[k]
			if len(c) > 500 {
				c = c[:500] + "…"
			}
			if len(o) > 300 {
				o = o[:300] + "…"
			}
			st.Samples = append(st.Samples, c+"  ==>  "+o)
		}
	}
	st.Distinct = len(sigs)
	// distinct non-trivial cases: different case lines whose observation shows that the modelled code was reached
	// past input validation (something was delivered, drawn, encoded or computed: not a bare early error or nothing)
	seen := map[uint64]struct{}{}
	for _, s := range shards {
		for i, c := range s.cases {
			o := s.obs[i]
			if o == "-" || strings.HasPrefix(o, "# ") || strings.HasPrefix(o, "- # ") || o == "" {
				continue
			}
			h := fnv.New64a()
			h.Write([]byte(c))
			seen[h.Sum64()] = struct{}{}
		}
	}
	st.DistinctCases = len(seen)
	st.NFailures = len(st.Failures)
	if len(st.Failures) > 50 {
		sort.SliceStable(st.Failures, func(i, j int) bool { return len(st.Failures[i].Case) < len(st.Failures[j].Case) })
		st.Failures = st.Failures[:50]
	}
	cw.Flush()
	ow.Flush()
	cf.Close()
	of.Close()
	js, _ := json.MarshalIndent(st, "", " ")
	return os.WriteFile(filepath.Join(dir, "stats.json"), js, 0o644)
}

func sortStrings(s []string) { sort.Strings(s) }
